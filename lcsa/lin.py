"""POLY/INTV - exact feasibility of conjunctions of linear constraints over the rationals
(Fourier-Motzkin elimination with strictness tracking), DNF handling for boolean
combinations, and vertex enumeration for two-variable closed polygons.

A constraint is (coeffs: dict var->Fraction, const: Fraction, op) meaning  sum(c*v) + const  op  0
with op in '<', '<=', '=='.   This is an abstract domain computation, not a solver back end."""
from fractions import Fraction
from itertools import combinations

MAX_CONSTRAINTS = 4000


class Lin:
    __slots__ = ("co", "c", "op")

    def __init__(self, co, c, op):
        self.co = {k: Fraction(v) for k, v in co.items() if v != 0}
        self.c = Fraction(c)
        self.op = op

    def neg(self):
        """negation as a list of alternatives (disjunction)"""
        m = Lin({k: -v for k, v in self.co.items()}, -self.c, None)
        if self.op == "<":     # not(e<0)  ==  -e <= 0
            m.op = "<="
            return [m]
        if self.op == "<=":    # not(e<=0) == -e < 0
            m.op = "<"
            return [m]
        # not(e==0) == e<0 or -e<0
        return [Lin(self.co, self.c, "<"), Lin(m.co, m.c, "<")]

    def key(self):
        return (tuple(sorted(self.co.items())), self.c, self.op)

    def __repr__(self):
        s = " + ".join("%s*%s" % (v, k) for k, v in sorted(self.co.items())) or "0"
        return "%s + %s %s 0" % (s, self.c, self.op)


def feasible(cons):
    """is the conjunction satisfiable over Q ?"""
    cons = list(cons)
    # substitute equalities away first
    while True:
        eq = next((c for c in cons if c.op == "==" and c.co), None)
        if eq is None:
            break
        cons.remove(eq)
        v, a = next(iter(sorted(eq.co.items())))
        # v = -(rest + c)/a
        new = []
        for c in cons:
            if v in c.co:
                f = c.co[v] / a
                co = dict(c.co)
                del co[v]
                for k, w in eq.co.items():
                    if k != v:
                        co[k] = co.get(k, 0) - f * w
                new.append(Lin(co, c.c - f * eq.c, c.op))
            else:
                new.append(c)
        cons = new
    vars_ = sorted({v for c in cons for v in c.co})
    for v in vars_:
        lo, hi, rest = [], [], []
        for c in cons:
            a = c.co.get(v, 0)
            if a == 0:
                rest.append(c)
            elif a > 0:
                hi.append(c)     # a*v + r op 0  ->  v op' -r/a  (upper bound)
            else:
                lo.append(c)
        for l in lo:
            for h in hi:
                al, ah = -l.co[v], h.co[v]
                co = {}
                for k, w in l.co.items():
                    if k != v:
                        co[k] = co.get(k, 0) + w / al
                for k, w in h.co.items():
                    if k != v:
                        co[k] = co.get(k, 0) + w / ah
                op = "<" if "<" in (l.op, h.op) else "<="
                rest.append(Lin(co, l.c / al + h.c / ah, op))
        # dedupe
        seen, cons = set(), []
        for c in rest:
            k = c.key()
            if k not in seen:
                seen.add(k)
                cons.append(c)
        if len(cons) > MAX_CONSTRAINTS:
            raise OverflowError("Fourier-Motzkin blow-up")
    for c in cons:
        if c.co:
            continue
        if c.op == "<" and not c.c < 0:
            return False
        if c.op == "<=" and not c.c <= 0:
            return False
        if c.op == "==" and c.c != 0:
            return False
    return True


# ------------------------------------------------------------------ boolean layer
# formula: ('lin', Lin) | ('and', [f...]) | ('or', [f...]) | ('not', f) | ('true',) | ('false',)
def f_and(*fs):
    return ("and", list(fs))


def f_or(*fs):
    return ("or", list(fs))


def f_not(f):
    return ("not", f)


def dnf(f):
    """-> list of conjunctions (each a list of Lin)"""
    t = f[0]
    if t == "true":
        return [[]]
    if t == "false":
        return []
    if t == "lin":
        return [[f[1]]]
    if t == "and":
        out = [[]]
        for g in f[1]:
            dg = dnf(g)
            out = [a + b for a in out for b in dg]
            if len(out) > 20000:
                raise OverflowError("DNF blow-up")
        return out
    if t == "or":
        out = []
        for g in f[1]:
            out.extend(dnf(g))
        return out
    if t == "not":
        g = f[1]
        if g[0] == "true":
            return []
        if g[0] == "false":
            return [[]]
        if g[0] == "lin":
            return [[alt] for alt in g[1].neg()]
        if g[0] == "not":
            return dnf(g[1])
        if g[0] == "and":
            return dnf(("or", [("not", h) for h in g[1]]))
        if g[0] == "or":
            return dnf(("and", [("not", h) for h in g[1]]))
    raise ValueError("bad formula %r" % (f,))


def tighten(cons, int_atoms):
    """over integer-valued atoms a strict inequality with integral coefficients  e < 0  is  e + 1 <= 0"""
    out = []
    for c in cons:
        if c.op == "<" and c.co and all(k in int_atoms for k in c.co) \
                and all(v.denominator == 1 for v in c.co.values()) and c.c.denominator == 1:
            out.append(Lin(c.co, c.c + 1, "<="))
        else:
            out.append(c)
    return out


def sat(f, domain=(), int_atoms=None):
    """is formula satisfiable together with the domain constraints? returns a witness conjunction or None"""
    for conj in dnf(f):
        cons = list(conj) + list(domain)
        if int_atoms:
            cons = tighten(cons, int_atoms)
        if feasible(cons):
            return conj
    return None


# ------------------------------------------------------------------ 2-d vertices
def vertices(cons, x="x", y="y"):
    """vertex set of the closure of a bounded 2-d polyhedron given by Lin constraints"""
    closed = [Lin(c.co, c.c, "<=" if c.op == "<" else c.op) for c in cons]
    pts = set()
    for a, b in combinations(closed, 2):
        a1, b1, c1 = a.co.get(x, 0), a.co.get(y, 0), a.c
        a2, b2, c2 = b.co.get(x, 0), b.co.get(y, 0), b.c
        det = a1 * b2 - a2 * b1
        if det == 0:
            continue
        px = (b1 * c2 - b2 * c1) / det
        py = (a2 * c1 - a1 * c2) / det
        ok = True
        for c in closed:
            v = c.co.get(x, 0) * px + c.co.get(y, 0) * py + c.c
            if (c.op == "<=" and v > 0) or (c.op == "==" and v != 0):
                ok = False
                break
        if ok:
            pts.add((px, py))
    return pts


def interior_nonempty(cons):
    """does the polyhedron have a point satisfying all non-equality constraints strictly?"""
    strict = [Lin(c.co, c.c, "<" if c.op == "<=" else c.op) for c in cons]
    return feasible(strict)
